"""Concretisations: abstract tokens (v0, s0, ...) -> Python names, insertion orders."""
import random

STR_POOLS = [
    ["A", "B", "C", "D", "E", "F", "G", "H", "I", "J"],
    ["zeta", "alpha", "Mid", "x_1", "node2", "Q", "rain", "T10", "var_y", "m"],
    ["n9", "n8", "n7", "n6", "n5", "n4", "n3", "n2", "n1", "n0"],
    ["variable_x", "probability1", "table", "network_a", "property2", "k", "L", "u", "w", "default_v"],
]


def var_names(tokens, rng, kind="str"):
    """Return {token: concrete name}.  kind: str | int | tuple | mixed | ident(tity)"""
    tokens = sorted(tokens)
    if kind == "ident":
        return {t: t for t in tokens}
    if kind == "str":
        pool = list(rng.choice(STR_POOLS))
        rng.shuffle(pool)
        return {t: pool[i] for i, t in enumerate(tokens)}
    if kind == "int":
        vals = rng.sample(range(0, 50), len(tokens))
        return {t: vals[i] for i, t in enumerate(tokens)}
    if kind == "tuple":
        vals = rng.sample(range(0, 50), len(tokens))
        return {t: ("t", vals[i]) for i, t in enumerate(tokens)}
    raise ValueError(kind)


def state_names(states, rng, kind="str"):
    """states: list of state tokens (declared order).  Returns {token: concrete state name}."""
    if kind == "ident":
        return {s: s for s in states}
    if kind == "str":
        pool = rng.choice([["low", "mid", "high", "top", "xx"], ["no", "yes", "maybe", "n/a", "q"],
                           ["s_c", "s_a", "s_b", "s_e", "s_d"]])
        return {s: pool[i] for i, s in enumerate(states)}
    if kind == "int":     # deliberately NOT range(card) order: shifted and reversed
        n = len(states)
        vals = [10 + (n - 1 - i) for i in range(n)]
        return {s: vals[i] for i, s in enumerate(states)}
    if kind == "range":
        return {s: i for i, s in enumerate(states)}
    if kind == "tuple":
        return {s: ("st", i * 3) for i, s in enumerate(states)}
    if kind == "mixed":
        pool = ["a", 7, ("t", 1), "z", 42]
        return {s: pool[i] for i, s in enumerate(states)}
    raise ValueError(kind)


def shuffled(xs, rng):
    xs = list(xs)
    rng.shuffle(xs)
    return xs
