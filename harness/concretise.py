"""Concretisations: abstract tokens (v0, s0, ...) -> Python names, insertion orders."""
import random

STR_POOLS = [
    ["A", "B", "C", "D", "E", "F", "G", "H", "I", "J"],
    ["zeta", "alpha", "Mid", "x_1", "node2", "Q", "rain", "T10", "var_y", "m"],
    ["n9", "n8", "n7", "n6", "n5", "n4", "n3", "n2", "n1", "n0"],
    ["variable_x", "probability1", "table", "network_a", "property2", "k", "L", "u", "w", "default_v"],
]


def fresh(x):
    """an object EQUAL to x but (where CPython allows) not IDENTICAL to it: names reach the library as separately built objects,
    the way they do when they are parsed, computed or read from a DataFrame"""
    if isinstance(x, str):
        return "".join(list(x))
    if isinstance(x, bool):
        return x
    if isinstance(x, int):
        return int(str(x))
    if isinstance(x, tuple):
        return tuple(fresh(e) for e in x)
    return x


class FreshDict(dict):
    """token -> name map whose lookups hand out fresh-but-equal name objects (iteration / items() give the stored ones)"""

    def __getitem__(self, k):
        return fresh(dict.__getitem__(self, k))

    def get(self, k, default=None):
        return fresh(dict.get(self, k, default))


def var_names(tokens, rng, kind="str"):
    return FreshDict(_var_names(tokens, rng, kind))


def state_names(states, rng, kind="str"):
    return FreshDict(_state_names(states, rng, kind))


def _var_names(tokens, rng, kind="str"):
    """Return {token: concrete name}.  kind: str | int | tuple | mixed | ident(tity)"""
    tokens = sorted(tokens)
    if kind == "ident":
        return {t: t for t in tokens}
    if kind == "str":
        pool = list(rng.choice(STR_POOLS))
        rng.shuffle(pool)
        return {t: pool[i] for i, t in enumerate(tokens)}
    if kind == "int":          # small (cached by CPython) and large ints
        vals = rng.sample(list(range(0, 30)) + list(range(1000, 1020)), len(tokens))
        return {t: vals[i] for i, t in enumerate(tokens)}
    if kind == "smallint":     # 0..n-1 in a shuffled assignment: labels that coincide with POSITIONS (index levels, axes, columns)
        vals = rng.sample(range(len(tokens)), len(tokens))
        return {t: vals[i] for i, t in enumerate(tokens)}
    if kind == "tuple":
        vals = rng.sample(list(range(0, 30)) + list(range(1000, 1020)), len(tokens))
        return {t: ("t", vals[i]) for i, t in enumerate(tokens)}
    raise ValueError(kind)


def _state_names(states, rng, kind="str"):
    """states: list of state tokens (declared order).  Returns {token: concrete state name}."""
    if kind == "ident":
        return {s: s for s in states}
    if kind == "str":
        pool = rng.choice([["low", "mid", "high", "top", "xx"], ["no", "yes", "maybe", "n/a", "q"],
                           ["s_c", "s_a", "s_b", "s_e", "s_d"]])
        return {s: pool[i] for i, s in enumerate(states)}
    if kind == "int":     # deliberately NOT range(card) order: shifted and reversed
        n = len(states)
        vals = [10 + (n - 1 - i) for i in range(n)]
        return {s: vals[i] for i, s in enumerate(states)}
    if kind == "range":
        return {s: i for i, s in enumerate(states)}
    if kind == "perm":      # integer names that are a non-identity permutation of the state NUMBERS
        n = len(states)
        return {s: (i + 1) % n for i, s in enumerate(states)}
    if kind == "tuple":
        return {s: ("st", i * 3) for i, s in enumerate(states)}
    if kind == "mixed":
        pool = ["a", 7, ("t", 1), "z", 42]
        return {s: pool[i] for i, s in enumerate(states)}
    raise ValueError(kind)


def shuffled(xs, rng):
    xs = list(xs)
    rng.shuffle(xs)
    return xs
