"""Per-property manifest text.  A property is claimed iff it has an entry here AND harness/props/<id>.py exists."""
CLAIMS = {
    "C08": {
        "text": ("TLC proves on every DAG over the node bound that the reachability algorithm pgmpy codes (visit set popped in "
                 "any order) equals the trail definition of d-connection (MC_Reach); TLC then enumerates every DAG on 4 nodes x "
                 "latent subsets (5 nodes in thorough) with the definitional answer of every d-separation API call and the "
                 "real code is replayed on all of them under several hash seeds, name maps and insertion orders (Gen_C08); random "
                 "6-7 node DAGs are recorded from the real code and validated by TLC against the same definitions (Trace_C08)."),
        "note": ("Small-scope exhaustive (<=4/5 nodes) + sampled 5-7 nodes. Oracle: trail definition in spec/DagLib.tla evaluated by TLC. "
                 "Start node never inside the observed set; is_dconnected compared for non-latent end nodes only."),
        "technique": "TLA+ spec (DagLib/DSep) + TLC exhaustive generation replayed on the code + TLC trace validation",
        "design_ref": "6/C08",
    },
}

NOT_APPLICABLE = {}
HOOK_COMMITS = []
