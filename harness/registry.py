"""Per-property manifest text.  A property is claimed iff it has an entry here AND harness/props/<id>.py exists."""
CLAIMS = {
    "C08": {
        "text": ("TLC proves on every DAG over the node bound that the reachability algorithm pgmpy codes (visit set popped in "
                 "any order) equals the trail definition of d-connection (MC_Reach); TLC then enumerates every DAG on 4 nodes x "
                 "latent subsets (5 nodes in thorough) with the definitional answer of every d-separation API call and the "
                 "real code is replayed on all of them under several hash seeds, name maps and insertion orders (Gen_C08); random "
                 "6-7 node DAGs are recorded from the real code and validated by TLC against the same definitions (Trace_C08)."),
        "note": ("Small-scope exhaustive (<=4/5 nodes) + sampled 5-7 nodes. Oracle: trail definition in spec/DagLib.tla evaluated by TLC. "
                 "Start node never inside the observed set; is_dconnected compared for non-latent end nodes only."),
        "technique": "TLA+ spec (DagLib/DSep) + TLC exhaustive generation replayed on the code + TLC trace validation",
        "design_ref": "6/C08",
    },
    "C01": {
        "text": ("The VE machine (spec/VE.tla, MC_VE.tla) transcribes pgmpy's pruning, evidence reduction and elimination loop with the "
                 "elimination order left nondeterministic; TLC checks on every (instance, query, evidence, virtual evidence, order) that "
                 "pruning is sound, that the product invariant holds exactly after every step and that the final table is the posterior "
                 "of the full CPD-product joint (integer arithmetic). Every terminal state is replayed on VariableElimination.query "
                 "(explicit order, every heuristic, greedy einsum path, joint T/F, several hash seeds, state-name types); queries recorded "
                 "from random 4-7 node networks with the H-VE hook are validated step by step by TLC (Trace_C01)."),
        "note": ("Small-scope exhaustive control (orders, queries, evidence) over a seeded instance file of CPD values (TLC cannot enumerate "
                 "real-valued tables); floats compared at 1e-9 against exact rationals; P(evidence)=0 excluded."),
        "technique": "TLA+ step machine of variable elimination model-checked with TLC; behaviours replayed on the code; hook traces validated by TLC",
        "design_ref": "6/C01",
    },
    "C04": {
        "text": ("The factor algebra is specified as an object store with exact rational values (spec/FactorAlg.tla): every operation is the "
                 "pointwise definition on named assignments, in-place variants replace exactly the target, out-of-place variants append a "
                 "fresh object. TLC enumerates every enabled single operation on pools of base factors, samples depth-4 sequences, checks "
                 "algebraic laws of the oracle, and each behaviour (with the expected projection of the WHOLE store after every step) is "
                 "replayed on DiscreteFactor under random axis orders, state-label types, hash seeds and both back-ends; random 8-step "
                 "sequences recorded from the code (incl. operations outside the precondition) are validated by TLC (Trace_C04)."),
        "note": "Values are small rationals; NaN arithmetic unspecified; scopes <=3 vars (Gen) / <=5 (Trace); float compare 1e-9.",
        "technique": "TLA+ object-store spec of factor algebra; TLC-generated behaviours replayed on the code; TLC trace validation",
        "design_ref": "6/C04",
    },
    "C05": {
        "text": ("A CPD object is specified by its meaning (value per named assignment) plus the 2-D layout rule (column j = j-th parent "
                 "configuration, row-major over the declared evidence list); TLC enumerates every parent permutation, every subset/state of "
                 "parents to marginalise/reduce, normalise/copy/to_factor/get_values, in- and out-of-place, to depth 2, and every behaviour "
                 "is replayed on TabularCPD comparing after each step the meaning, parent order, state names and get_values() of every live "
                 "object. Validation: TLC injects every single defect into small valid models, evaluates the five-clause Valid predicate and "
                 "check_model must accept exactly the valid ones; Valid => joint sums to 1 is checked as a lemma."),
        "note": "child card 1-3, <=3 parents of card 1-3; marginalising a parent follows the code's documented uniform mixing; tolerance probed away from boundary.",
        "technique": "TLA+ spec of CPD meaning/layout + validation predicate; exhaustive TLC generation replayed on the code",
        "design_ref": "6/C05",
    },
    "C03": {
        "text": ("Same VE machine and instance file as C01: for every (instance, query set, evidence, virtual evidence, elimination order) TLC "
                 "computes MAPSet, the arg-max set of the exact posterior by integer comparison (ties kept). Each case is replayed on "
                 "VariableElimination.map_query (explicit order and every heuristic), BeliefPropagation.map_query (where the library accepts the "
                 "graph) and BayesianNetwork.predict; accepted iff exactly the requested variables are assigned, every value is a state name of "
                 "its variable, and the assignment is in MAPSet."),
        "note": "Ties free; P(evidence)=0 excluded; small-scope instance file (<=5 nodes, card<=3) incl. tied (uniform/twin) and tie-free tables.",
        "technique": "TLA+ VE machine + definitional MAPSet, TLC-enumerated cases replayed on the code",
        "design_ref": "6/C03",
    },
    "C15": {
        "text": ("Edit histories are an explicit state machine (spec/ModelEdit.tla for BayesianNetwork with CPD contents as exact rationals; "
                 "spec/GraphEdit.tla for DynamicBayesianNetwork, JunctionTree and MarkovNetwork): every public editing call is an action with "
                 "precondition, effect and frame condition; calls outside the precondition are rejected and change nothing. TLC checks by BFS "
                 "over the abstract state graph: acyclicity (BN, 2-slice DBN), forest property (JT), rejected-unchanged, frame (only the target "
                 "object changes), copy-equality, and that remove_node/do keep every CPD a normalised conditional over exactly its graph "
                 "parents. All depth-2 behaviours and sampled depth-9/10 behaviours (with 2-3 live objects incl. copies, valid and invalid "
                 "arguments, check_model and marginal queries interleaved) are replayed on the real classes comparing the projection of EVERY "
                 "live object (nodes, edges, latents, CPDs by named assignment / factor bag) after every step."),
        "note": ("3 node tokens, palette of 8 CPDs, <=3 live objects; range(card) state names; multi-element calls exercised with one-element lists; "
                 "DBN CPD edits and DAG construction beyond BN are not modelled; DBN.copy()'s own precondition (all variables in all present slices) is modelled as the code has it."),
        "technique": "TLA+ edit-history state machines model-checked with TLC; generated behaviours replayed on the code with full-state comparison",
        "design_ref": "6/C15",
    },
    "C02": {
        "text": ("Belief-update message passing on a clique tree is a TLA+ state machine (spec/MNLib.tla: Send, Calibrated) over the exact "
                 "factor algebra. For BN / MarkovNetwork / FactorGraph / JunctionTree models the engine's clique tree is recorded and checked "
                 "(tree, covers every factor scope, running intersection, product of potentials = product of factors as a bag), then EVERY "
                 "_update_beliefs call (hook H-BP) must be exactly the spec's Send step from the current spec state (new clique belief and "
                 "sepset message entry by entry as exact fractions), the calibrated clique/sepset beliefs must be calibrated and proportional "
                 "to the sum- resp. max-marginals of the instance's joint, and posterior/MAP queries with evidence by state name (joint T/F, "
                 "str/int/tuple/mixed labels) must equal the conditional of the joint. All validation is done by TLC (Trace_MN.tla)."),
        "note": "Connected graphs only; potentials small integers/rationals; shapes incl. cycles 5-7 (fill-in cliques) and duplicate factors; 4/8 hash seeds.",
        "technique": "TLA+ belief-update machine; hook-level traces of the real engine validated step by step by TLC",
        "design_ref": "6/C02",
    },
    "C14": {
        "text": ("Conversions are recorded from the real code and validated by TLC against spec/MNLib.tla on the instance's exact joint: BN->MN "
                 "(edges = moral graph, factor bag = CPDs), MN->FactorGraph and FactorGraph->MN (factor bag, factor/variable edges, target passes "
                 "its own check_model), triangulation under H1-H6 and explicit orders (chordal supergraph on the same nodes, Chordal = perfect "
                 "elimination order exists), ->JunctionTree from BN/MN/FG (connected tree, cliques cover every factor scope, running "
                 "intersection, product of clique potentials equals the product of ALL factors counting duplicates, state names kept), and the "
                 "partition function."),
        "note": "Graph shapes up to 7 variables incl. duplicate value-identical factors; clique trees only for connected graphs; known finding: MN.to_factor_graph target fails its own check_model (pinned by an existing test).",
        "technique": "TLA+ structural/distributional predicates; recorded conversion traces validated by TLC",
        "design_ref": "6/C14",
    },
    "C12": {
        "text": ("Definitional oracles in spec/PCLib.tla: Markov equivalence class by enumeration of all DAGs, CPDAG = edges compelled in every "
                 "member, consistent extensions of a PDAG. TLC proves for every DAG on 4 nodes that the level-wise skeleton search as coded (orig and "
                 "snapshot adjacency policies, any edge-visiting order, any separating set found) is sound and complete (MC_PCSkel), that ANY maximal application order of Meek rules "
                 "R1-R3 (with their non-adjacency side conditions) to skeleton+v-structures is sound at every step and ends in the CPDAG, and "
                 "that the CPDAG's extensions are exactly the class. Every one of the 543 ground truths is replayed on PC (orig/stable/parallel; "
                 "callable d-separation oracle answering from TLC's table, and independence_match on the full pairwise list; 4/8 hash seeds): "
                 "skeleton, separating sets (must d-separate), CPDAG (directed and undirected edges exactly), DAG (member of the class). "
                 "PDAG.to_dag is replayed on every extendable partially directed graph on 4 nodes (result must be one of TLC's consistent extensions)."),
        "note": "Exhaustive on 4 labelled nodes; CI answers are exact d-separation; max_cond_vars = number of nodes; larger graphs not yet sampled.",
        "technique": "TLA+ definitional oracle + Meek-rule state machine model-checked by TLC; exhaustive generated cases replayed on the code",
        "design_ref": "6/C12",
    },
    "C20": {
        "text": ("TLC evaluates an exact-rational specification of multivariate-normal algebra (spec/GaussLib.tla) and checks independent derivations "
                 "against each other as lemmas (matrix vs recursive covariance, covariance vs information-form conditioning, normal equations, "
                 "canonical-form marginalise/reduce/product vs the density incl. its constant g). For every DAG on <=4 nodes x coefficient patterns x "
                 "every non-empty proper missing set (plus sampled 5-node DAGs) the expected joint, conditional mean/covariance and least-squares "
                 "fit are replayed on LinearGaussianBayesianNetwork.to_joint_gaussian/predict/fit and LinearGaussianCPD.fit; every "
                 "marginalise/reduce/canonical conversion/product/pdf on pools of positive-definite Gaussians (in and out of place, with frame "
                 "and cached-precision checks) is replayed on GaussianDistribution and CanonicalDistribution; recorded calls on random 5-6 node "
                 "networks are validated by TLC (Trace_C20)."),
        "note": ("Integer / half-integer coefficients and small integer data (floating-point conditioning not examined); residual variance uses the "
                 "code's n-1 divisor; g is a symbolic form q + c*log(2pi) - 1/2 log X evaluated by the harness; known finding: CanonicalDistribution.marginalize g."),
        "technique": "TLA+ exact-rational Gaussian algebra with cross-derivation lemmas; TLC-generated cases replayed on the code; TLC trace validation",
        "design_ref": "6/C20",
    },
    "C18": {
        "text": ("spec/Gen_C18.tla: independence assertions up to symmetry, semi-graphoid closure as a least fixed point (decomposition, weak union, "
                 "contraction); TLC validates the rules against the trail definition (the d-separation statements of every DAG on 4 nodes are closed "
                 "under them), enumerates every premise set of <=2 assertions over 4 variables with its closure (replayed on closure/entails/"
                 "is_equivalent), decides X_|_Y|Z on explicit joint tables by exact cross-multiplication incl. context-specific cases (replayed on "
                 "check_independence), and computes the set of DAGs that are I-maps of each joint (minimal_imap under every order must return one). "
                 "is_iequivalent is replayed on all pairs of DAGs on <=3 nodes and all same-skeleton pairs on 4 nodes against the equivalence "
                 "classes enumerated by TLC (skeleton + v-structures, lemma: = same d-separation statements via Gen_C12's class/CPDAG lemmas)."),
        "note": ("Known findings are modelled in the spec as named deviation rules (ContrLoose, CodeImap) so that only behaviour equal to the recorded "
                 "deviation is suppressed: closure's contraction with extra conditioning variables; minimal_imap's union-of-subsets rule."),
        "technique": "TLA+ semi-graphoid closure / exact independence on joints / I-map sets; TLC-enumerated cases replayed on the code",
        "design_ref": "6/C18",
    },
    "C13": {
        "text": ("spec/Gen_C13.tla defines graph surgery, the truncated factorisation (exact integers) and the back-door / front-door criteria by "
                 "quantification over simple trails whose first edge points into the treatment. TLC enumerates (instance, latent subset, "
                 "treatment, outcome) on 3-5 node networks and the harness replays: BayesianNetwork.do (exactly the incoming edges removed, "
                 "intervened CPDs parent-free, all other CPDs untouched and not shared, original unchanged), CausalInference.query with the "
                 "default and EVERY valid back-door adjustment set, ve and bp back-ends, single and two-variable do-sets incl. parent-child "
                 "pairs (= truncated factorisation), is_valid_backdoor_adjustment_set / is_valid_adjustment_set on every candidate set of observed "
                 "non-descendants (= criterion), and every set returned by get_all_backdoor/frontdoor_adjustment_sets and get_minimal_adjustment_set."),
        "note": "Strictly positive CPDs; one clamp value per do-variable; <=1 latent; known finding: default adjustment for joint interventions when a parent of one do-variable descends from another.",
        "technique": "TLA+ path-based criteria and truncated factorisation; TLC-enumerated cases replayed on the code",
        "design_ref": "6/C13",
    },
    "C07": {
        "text": ("Ancestral sampling is specified per row: node n of a row is drawn from exactly the CPD column of the row's sampled parent states "
                 "(spec/Trace_C07.tla over BNLib). Runs of forward_sample, rejection_sample and likelihood_weighted_sample are recorded with a "
                 "harness-side wrapper around sample_discrete/sample_discrete_maps (the weight vectors handed to numpy.random.choice) joined "
                 "with the returned frame; TLC checks: every (parent assignment, weight vector) pair is the exact CPD column; every sampled "
                 "value is a state name of positive probability; exact row count; latent columns only on request; rejection/LW rows agree with "
                 "the evidence; the likelihood weight is the exact product of the evidence variables' CPD entries given the row; same seed => "
                 "identical frame; every Gibbs transition kernel entry equals the full conditional of the joint; a 6-sigma integer frequency "
                 "bound per kernel as backstop."),
        "note": "numpy's generator is trusted to draw from the p it is given; <=5 nodes, card<=3, zero entries and latent sets included; simulate() wrappers and the torch backend not yet covered.",
        "technique": "TLA+ per-row sampling specification; recorded sampler runs (kernels + frames) validated by TLC",
        "design_ref": "6/C07",
    },
    "C06": {
        "text": ("Parameter learning is specified in TLA+ (spec/LearnLib.tla) on a bag of weighted rows in exact rationals: counts, MLE (uniform for "
                 "unseen parent configurations), (N+alpha)/(sum N + sum alpha) with K2 / BDeu / explicit-Dirichlet pseudo counts, incremental update = "
                 "Bayesian fit with previous CPD x previous sample size, and one exact EM iteration. TLC enumerates every DAG over <=3 columns (all "
                 "543 on 4 in thorough) x small data sets (declared-but-unobserved states, unseen configurations, integer/fractional/zero weights) x "
                 "all estimators, proves oracle lemmas (columns sum to one, closed forms, row-order and weight-expansion invariance, pooled-MLE law "
                 "of updates) and emits the expected CPD of every node by named assignment; each case is replayed on fit / DAG.fit / get_parameters / "
                 "estimate_cpd / fit_update / EM-without-latents under permuted rows, columns, parent orders, dtypes, weights, n_jobs, non-sorted "
                 "state names and hash seeds (check_model required); recorded fits on random data are validated cell by cell by TLC (Trace_C06); "
                 "EM with latents: first iteration = TLC's exact E+M step, composition of iterations, likelihood sequences monotone."),
        "note": "EM log-likelihoods are computed by the harness (brute force over the latent); EM beyond the first iteration only by composition/monotonicity; string column names; small-scope exhaustive, larger data sampled.",
        "technique": "TLA+ exact-rational learning spec; TLC-enumerated cases replayed on the code; TLC trace validation",
        "design_ref": "6/C06",
    },
    "C09": {
        "text": ("spec/IOLib.tla models each file format as an abstract document (declared variables, state lists, parent lists, table cells as opaque "
                 "value tokens in the order the format prescribes) with Write(fmt, model) and Read(fmt, doc); TLC proves Read(Write(m')) ~ Canon(m) for "
                 "every declared evidence order of every instance and format (BIF row-order freedom, NET four-decimal units from exact decimal "
                 "digits). Every real pgmpy round trip (writer/reader classes, str/string, save/load, n_jobs 1/2; hash seeds; identifier names incl. "
                 "format keywords; random insertion orders) is validated by TLC (Trace_C09) in both directions: tokenised text = Write(fmt, m'), read "
                 "model = Read(fmt, observed text), read model ~ m by named assignment; BIF/XMLBIF/UAI bit-exact on 17-digit floats, 1e-12..1, "
                 "exact 0/1, a 1008-cell table, cards 1-12, 0-5 parents, isolated nodes, Markov networks for UAI."),
        "note": "Assumes the C05 layout rule and Python string order for names; NET values not within 1e-9 of a rounding tie; known finding: NETReader with a variable named 'node'.",
        "technique": "TLA+ abstract document model of the formats; lexed real files validated by TLC in both directions",
        "design_ref": "6/C09",
    },
    "C10": {
        "text": ("K2/BDeu/BDs/BIC/AIC local scores are specified in TLA+ (spec/ScoreSpec.tla, LogForm.tla) by their published closed forms over all parent "
                 "configurations and all declared states as exact symbolic normal forms (integer combinations of log p and log pi; Gamma at integers and "
                 "half-integers via Legendre). TLC checks the symbolic arithmetic (Gamma recurrence, duplication formula) and on every generated data set "
                 "that unobserved configurations are neutral, K2 = BDeu with unit pseudo counts, BDs = BDeu on fully observed data, row-order invariance, "
                 "and that all Markov-equivalent DAG pairs on <=4 columns have identical BDeu/BIC/AIC network forms. The tables are replayed on pgmpy: "
                 "local_score equals the form wherever the closed form exists; parent-order, row/column/state-order/dtype permutation, ScoreCache "
                 "hit/miss/eviction, score = sum local + prior, structure_prior, structure_score, equal scores on every equivalent DAG pair for all ess."),
        "note": "math.log evaluates the forms (validated against math.lgamma on TLC's table); closed form only where ess/(q*r) is an integer or half-integer (relations elsewhere); known finding: BDs with unobserved parent configurations.",
        "technique": "TLA+ symbolic normal forms of the scores; TLC-generated tables replayed on the code",
        "design_ref": "6/C10",
    },
    "C17": {
        "text": ("spec/Gen_C17.tla unrolls a 2-TBN template into an ordinary Bayesian network over nodes <<var, t>> inside TLA+ (a BNLib instance) and "
                 "computes filtered (evidence up to the queried slice) and smoothed (all evidence) marginals by brute force on its joint; TLC enumerates "
                 "(template, query node in slices 0..MaxT, evidence set in any slices). Each case is replayed on DBNInference.forward_inference "
                 "(filter), backward_inference and query (smoothing), incl. two-variable queries; get_constant_bn must expose the template's CPDs "
                 "unchanged and initialize_initial_state must copy CPDs to the other slice unaltered (compared by named parent assignment)."),
        "note": ("Regular templates (inter-slice edges are persistence edges of an interface set, every variable has an intra-slice edge) plus one irregular "
                 "witness; range(card) state names; quick replays a seeded sample of TLC's cases. Known findings (modelled by features): smoothing with "
                 "interface evidence before the last slice, multi-slice queries in one call, irregular templates."),
        "technique": "TLA+ unrolling of the template + brute-force marginals; TLC-enumerated cases replayed on the code",
        "design_ref": "6/C17",
    },
    "C19": {
        "text": ("spec/CITest.tla specifies the stratified contingency-table test (strata, tables over present values, dof, Yates correction at dof 1, "
                 "Cressie-Read statistic for every rational lambda as an exact symbolic normal form, p-value kind, verdict rule); spec/PCorr.tla "
                 "partial correlation by least squares with intercept in exact integers. TLC proves on every generated case: symmetry in X and Y, "
                 "invariance to row and Z order, zero statistic with p = 1 on exactly independent/degenerate tables, equality with Pearson's X^2 at "
                 "lambda = 1, infinity exactly for lambda <= -1 on empty cells, normal equations, affine invariance of r. TLC enumerates every data "
                 "bag of small table families, every (X, Y, ordered Z) on seeded data, every affine map on tiny integer data; each case is replayed "
                 "on pgmpy with the boolean rule, two-run relations and an exact verdict-boundary check; calls recorded from random frames and from "
                 "PC.estimate are validated event by event by Trace_C19."),
        "note": "chi-square and Student-t survival functions are uninterpreted (scipy evaluates them on the spec's statistic and dof) except p = 1 / p = 0 cases fixed by the spec; forms evaluated in doubles at 1e-9; known finding: NaN for empty cells with lambda < 0, lambda != -1 (scipy).",
        "technique": "TLA+ symbolic specification of the tests; TLC-enumerated cases replayed on the code; TLC trace validation",
        "design_ref": "6/C19",
    },
    "C11": {
        "text": ("Hill climbing is a TLA+ step machine over an uninterpreted integer local-score table plus a per-edge structure prior (spec/SearchLib.tla, "
                 "Gen_C11H.tla). Legality is defined on the result graph (DAG, fixed/black/white lists, in-degree bound, tabu); TLC proves the path "
                 "formulation (flip legal iff no OTHER directed path) and 'legal moves = admissible neighbouring DAGs' on every DAG on <=4 nodes and "
                 "checks on every behaviour (every start DAG x option palettes x every tie) that the contract holds in every state and that self-stopped "
                 "runs with tabu length 0 are local optima. Terminal states are replayed on HillClimbSearch through a table-backed StructureScore; "
                 "recorded calls (integer tables and real k2/bdeu/bds/bic/aic) are validated iteration by iteration by TLC (logged legal set = spec legal "
                 "set, same deltas, applied move is an arg-max with delta >= eps, termination justified, contract and unchanged start_dag). "
                 "ExhaustiveSearch: TLC enumerates all DAGs (<=4 nodes; 5 nodes as an invariant over 29 281 states): maximality, every DAG once, sorted. "
                 "TreeSearch: all spanning trees (<=6 nodes), maximum-weight ones and their orientation from every root; Chow-Liu and TAN; mutual "
                 "information as exact LogForm; object reuse; auto root."),
        "note": "Scores decomposable (values are C10's concern); start graph already satisfies lists and in-degree; eps > 0; weights strictly positive; real scores compared at 8e-6; small-scope exhaustive (<=4 nodes) plus seeded sampling (<=6).",
        "technique": "TLA+ hill-climbing step machine model-checked by TLC; behaviours replayed and recorded runs validated by TLC",
        "design_ref": "6/C11",
    },
    "C16": {
        "text": ("spec/Gen_C16.tla: an engine is an object bound to a model and a history is a sequence of questions to ONE engine; the answer of every "
                 "question (posterior table, MAP set, truncated factorisation) is specified as a function of (model content, question) only and no "
                 "action changes the model (lemma HistoryIndependent on every enumerated history). TLC enumerates every history of 3 questions over a "
                 "8-question palette (hard and virtual evidence incl. the same soft-evidence variable with two likelihoods, MAP, do-queries); each is "
                 "replayed on shared VariableElimination / BeliefPropagation / CausalInference engines under concretisations {str, int, tuple variable "
                 "names} x state-name kinds x insertion orders x hash seeds x {numpy, torch}: every answer must be the expected one (= a fresh "
                 "engine's), and after every call the model (nodes, edges, latents, CPD values, state names), the evidence dictionary and the "
                 "virtual-evidence CPDs passed in must be unchanged. Frame checks of other calls live in their own checks (C04 operands, C08 graphs, "
                 "C11 start_dag and data, C13 do(), C15 copies)."),
        "note": "Histories of length 3 on 6-11 instances; CausalInference only with string names (its query uses keyword lookups); torch compared at 1e-6.",
        "technique": "TLA+ history machine with history-independent answers; TLC-enumerated histories replayed on shared engines with frame checks",
        "design_ref": "6/C16",
    },
}

NOT_APPLICABLE = {}
HOOK_COMMITS = ["2121f06", "2905ba4", "177d1bb"]


# ---------------------------------------------------------------------------------------------------------------------
# Second-round extensions (DESIGN.md section 17): appended to the descriptions above
def _extend(pid, text=None, note=None):
    if text:
        CLAIMS[pid]["text"] += " " + text
    if note:
        CLAIMS[pid]["note"] = note


_extend("C01", "One caller-owned evidence dictionary per case is reused for all configurations and must come back unchanged; the shape with two "
        "children of the same three parents (factor pairs sharing three variables in rotated order) is part of the quick tier.")
_extend("C02", "Further model kinds: junction trees written down by hand with independently permuted clique variable orders, Markov networks with "
        "3-variable sepsets (k5m, wheel5, core3x3) and Markov networks whose potentials are all scaled by 1e-7 (normalised answers only); a crash "
        "inside calibrate is a verdict (raised event); the model is unchanged by calibration and queries (frame event).")
_extend("C03", "BeliefPropagation.map_query is also asked right after max_calibrate() / calibrate() on the shared engine.")
_extend("C04", "Equality is asked on re-labelled copies (rotated state orders, shuffled axes) as well and must not depend on them. Factor sets "
        "(pgmpy.factors.FactorSet) are a second object store (spec/Gen_C04S.tla: value-semantic sets of factors; product / divide / marginalize / "
        "copy in both variants; every live set compared after every step); one pool has 4 variables with nested 4- and 3-variable scopes.")
_extend("C05", "Validation defects include a child's view listing the parent's states in another ORDER (state_order).")
_extend("C06", "Dirichlet priors are also handed over as caller-owned float arrays; all prior arguments and data frames must come back unchanged and "
        "a repeated call with the same objects must give the same estimates.")
_extend("C07", "Also: the Gibbs chain itself is replayed draw by draw from the logged kernels (sweep events); partial_samples columns must come back "
        "row by row for input frames with non-default indices; simulate() with do / evidence / virtual evidence / missing values; the same seeded "
        "calls under two PYTHONHASHSEEDs must give the same frames (xrepro events); numpy's global generator is perturbed between the two calls of "
        "every reproducibility pair; 30% of the traces use integer state names that collide with state numbers; forward / rejection / "
        "likelihood-weighted sampling and simulate are also recorded under the torch backend (float32: fractions snapped to denominators <= 4000).",
        note="numpy's generator is trusted to draw from the p it is given; <=5 nodes, card<=3, zero entries and latent sets included; Gibbs events on numpy only.")
_extend("C08", "Trace_C08 is a state machine over the object's CURRENT graph: edit events (add_edge with its acyclicity precondition, remove_edge, "
        "remove_node, add_node, do) between query batches, the graph read back after every edit, and the earlier questions asked again after it; "
        "NaiveBayes star models (own active_trail_nodes / local_independencies + inherited API) are recorded as well; node names are str / int "
        "(incl. 0 and > 256) / tuples handed over as equal-but-not-identical objects.")
_extend("C10", "Column labels are strings or small integers that coincide with level positions; the data frame must be unchanged by scoring.")
_extend("C12", "The conditional-independence queries build_skeleton puts to the oracle are recorded and validated by TLC as a behaviour of the "
        "skeleton machine (Trace_C12.tla: surviving edge, set size = level, set inside the right adjacency, complete levels, no skipped level, no "
        "early stop, returned skeleton and separating sets = the machine's).",
        note="Exhaustive on 4 labelled nodes + 12 (quick) / 43 (thorough) five-node ground truths; CI answers are exact d-separation; max_cond_vars in "
             "{maximal degree of the ground truth (the statement's bound), +1, number of nodes}.")
_extend("C13", "Every case is run under string names (full API) and once more under int or tuple names (do, query, get_minimal_adjustment_set); the "
        "criterion API enforces string names by design.")
_extend("C14", "Instances include two different factors over the same scope; every source model must be unchanged by every conversion (frame events).")
_extend("C16", "Further question kinds: the engine operations calibrate / max_calibrate (BeliefPropagation) and seeded forward / likelihood-weighted / "
        "rejection sampling calls on a shared BayesianModelSampling engine, whose answer is specified as 'what a fresh engine answers'. "
        "CausalInference is replayed with int and tuple names and under torch as well. The purity clause for scoring / estimation / search / export / "
        "conversion calls is checked by deep snapshots inside C02, C04, C06, C08, C09, C10, C11, C13, C14, C19, C20.",
        note="Histories of length 3 on 6-11 instances; torch compared at 1e-6.")
_extend("C17", "An HMM-shaped template (one interface variable, two observation variables) gets a third of the replay budget for smoothing with "
        "evidence on two observation variables in two slices.")
_extend("C19", "pearsonr is asked again on the SAME DataFrame object after its rows were reordered in place; data frames must be unchanged by the tests.")
