"""Per-property manifest text.  A property is claimed iff it has an entry here AND harness/props/<id>.py exists."""
CLAIMS = {
    "C08": {
        "text": ("TLC proves on every DAG over the node bound that the reachability algorithm pgmpy codes (visit set popped in "
                 "any order) equals the trail definition of d-connection (MC_Reach); TLC then enumerates every DAG on 4 nodes x "
                 "latent subsets (5 nodes in thorough) with the definitional answer of every d-separation API call and the "
                 "real code is replayed on all of them under several hash seeds, name maps and insertion orders (Gen_C08); random "
                 "6-7 node DAGs are recorded from the real code and validated by TLC against the same definitions (Trace_C08)."),
        "note": ("Small-scope exhaustive (<=4/5 nodes) + sampled 5-7 nodes. Oracle: trail definition in spec/DagLib.tla evaluated by TLC. "
                 "Start node never inside the observed set; is_dconnected compared for non-latent end nodes only."),
        "technique": "TLA+ spec (DagLib/DSep) + TLC exhaustive generation replayed on the code + TLC trace validation",
        "design_ref": "6/C08",
    },
    "C01": {
        "text": ("The VE machine (spec/VE.tla, MC_VE.tla) transcribes pgmpy's pruning, evidence reduction and elimination loop with the "
                 "elimination order left nondeterministic; TLC checks on every (instance, query, evidence, virtual evidence, order) that "
                 "pruning is sound, that the product invariant holds exactly after every step and that the final table is the posterior "
                 "of the full CPD-product joint (integer arithmetic). Every terminal state is replayed on VariableElimination.query "
                 "(explicit order, every heuristic, greedy einsum path, joint T/F, several hash seeds, state-name types); queries recorded "
                 "from random 4-7 node networks with the H-VE hook are validated step by step by TLC (Trace_C01)."),
        "note": ("Small-scope exhaustive control (orders, queries, evidence) over a seeded instance file of CPD values (TLC cannot enumerate "
                 "real-valued tables); floats compared at 1e-9 against exact rationals; P(evidence)=0 excluded."),
        "technique": "TLA+ step machine of variable elimination model-checked with TLC; behaviours replayed on the code; hook traces validated by TLC",
        "design_ref": "6/C01",
    },
}

NOT_APPLICABLE = {}
HOOK_COMMITS = ["2121f06", "2905ba4"]
