"""Deep snapshots of caller-owned arguments (C16: no call changes the data, model, graph, CPDs or factors passed to it)."""


def df_snapshot(df):
    """columns (order, labels), dtypes, index labels and every cell of a DataFrame, as a comparable value"""
    import numpy as np
    cols = [repr(c) for c in df.columns]
    cells = []
    for c in df.columns:
        col = df[c]
        vals = []
        for x in col.tolist():
            vals.append("NaN" if (isinstance(x, float) and x != x) else repr(x))
        cells.append(vals)
    return (cols, [str(t) for t in df.dtypes], [repr(i) for i in df.index.tolist()], cells, repr(getattr(df, "attrs", {})))


def _vals(a):
    import numpy as np
    a = a.detach().cpu().numpy() if hasattr(a, "detach") else a
    return np.asarray(a, dtype=float).round(12).tobytes()


def model_snapshot(model):
    """nodes, edges, latents and every CPD / factor (scope order, cardinalities, values, state names) of a model"""
    parts = [sorted(map(repr, model.nodes())), sorted(map(repr, model.edges())), sorted(map(repr, getattr(model, "latents", []) or []))]
    facs = []
    if hasattr(model, "get_cpds"):
        try:
            facs = list(model.get_cpds() or [])
        except TypeError:
            facs = list(getattr(model, "cpds", []))
    elif hasattr(model, "get_factors"):
        facs = list(model.get_factors() or [])
    out = []
    for f in facs:
        if hasattr(f, "values"):
            out.append((repr(list(f.variables)), repr([int(c) for c in f.cardinality]), _vals(f.values),
                        repr(sorted((repr(k), repr(list(v))) for k, v in (f.state_names or {}).items()))))
        else:           # e.g. LinearGaussianCPD
            out.append(repr({k: repr(v) for k, v in sorted(vars(f).items())}))
    parts.append(sorted(out))
    return parts
