"""Regenerate /verif/MANIFEST.json from harness/registry.py."""
import json
import os

from .registry import CLAIMS, NOT_APPLICABLE
from .tlc import VERIF


def main():
    props = [json.loads(l) for l in open(os.path.join(VERIF, "properties.jsonl"))]
    checks, na = [], []
    for p in props:
        pid = p["id"]
        c = CLAIMS.get(pid)
        if c and os.path.exists(os.path.join(VERIF, "harness", "props", pid.lower() + ".py")):
            checks.append({
                "property_id": pid,
                "quick_cmd": f"./check {pid} --tier quick",
                "thorough_cmd": f"./check {pid} --tier thorough",
                "evidence_file": f"/verif/evidence/{pid}.json",
                "replay_cmd_template": f"./check {pid} --replay {{path}}",
                "engine": "tlc-conformance",
                "level_claimed": {"category": "model_checking", "text": c["text"], "design_ref": "DESIGN.md section " + c["design_ref"]},
                "level_note": c["note"],
                "technique": c["technique"],
            })
        else:
            na.append({"property_id": pid, "reason": NOT_APPLICABLE.get(pid, "check not built yet in this session (planned: DESIGN.md section 6/" + pid + "); not claimed until its TLA+ spec and conformance harness exist")})
    m = {
        "version": 1,
        "setup_cmd": "./setup.sh",
        "hooks": {
            "guard": "PGMPY_VERIF",
            "enable": "checks run /venv/bin/python with PYTHONPATH=/repo and PGMPY_VERIF=1 (pgmpy is imported from /repo's working tree; no build step)",
            "baseline_off_cmd": "cd /repo && env -u PGMPY_VERIF /venv/bin/python -m pytest -ra -q -p no:cacheprovider --timeout=900 --continue-on-collection-errors",
            "source_commits": HOOK_COMMITS,
            "add_only": True,
        },
        "engines": [{"name": "tlc-conformance", "path": "/verif/check",
                     "serves_properties": [c["property_id"] for c in checks],
                     "kind_free_text": "explicit TLA+ specification (spec/*.tla) model-checked with TLC; bound to pgmpy by replaying TLC-generated behaviours on the real code and by validating traces recorded from the real code with TLC"}],
        "checks": checks,
        "not_applicable": na,
        "notes": "See DESIGN.md. Exit codes: 0 held, 1 VIOLATION, 2 machinery failure. known_findings.json lists recorded genuine defects.",
    }
    with open(os.path.join(VERIF, "MANIFEST.json"), "w") as f:
        json.dump(m, f, indent=1)
    print(f"MANIFEST: {len(checks)} claimed, {len(na)} not claimed")


HOOK_COMMITS = []
try:
    from .registry import HOOK_COMMITS  # noqa
except ImportError:
    pass

if __name__ == "__main__":
    main()
