#!/usr/bin/env python3
"""Write seeded/<id>/meta.json from the table below + confirm.json (if present)."""
import json, os
NEEDS = {
 "C01-A": ("final-factor set in VariableElimination collapses value-identical factors", "two CPDs with identical tables observed in the same state and a non-greedy elimination order", "C01 result.value; C03 not_a_maximiser"),
 "C01-B": ("pruned-network cache keyed by (query, evidence names) survives the virtual-evidence re-initialisation", "two virtual-evidence queries on ONE engine, same query and soft-evidence variable, different likelihoods", "C01 result.value (shared engine + two likelihoods); also C03, C16"),
 "C02-A": ("BeliefPropagation._query skips calibration when beliefs exist, whatever produced them", "max_calibrate() followed by query() on the same object, query covered by a proper sub-tree", "C02 bp_query result.value"),
 "C02-B": ("triangulate() no longer adds its own fill-in edges to the working graph", "interaction graph with a chordless cycle of length >= 5 (hash-seed dependent for 5/6, always for >= 7)", "C14 triangulate.not_chordal (and C02 via the junction tree)"),
 "C03-A": ("evidence-reduced factors are tagged with None instead of the evidence variable", "two observed children with identical CPDs in the same state", "C03 not_a_maximiser; C01"),
 "C03-B": ("same stale pruning cache as C01-B, seen through map_query", "two MAP queries with virtual evidence on one engine", "C03 not_a_maximiser"),
 "C04-A": ("DiscreteFactor.sum appends cardinalities in another order than the variables", "right operand introduces >= 2 new variables of different cardinality", "C04 result.state_names / result.scope"),
 "C04-B": ("reduce(inplace=False) returns a view of the operand's array", "partial out-of-place reduce followed by an in-place scalar operation or set_value on either object", "C04 frame.value"),
 "C05-A": ("reorder_parents applies the inverse permutation", ">= 3 parents and a permutation that is not its own inverse", "C05 returned_table"),
 "C05-B": ("is_valid_cpd compares the table total with the number of columns", "two columns wrong with compensating errors", "C05 accepts_invalid (colsum_compensating defects)"),
 "C06-A": ("MLE passes the pandas-sorted level order as state names", "explicit non-sorted state names on a variable that is a parent", "C06 state_names / value"),
 "C06-B": ("scalar Dirichlet pseudo count truncated to int", "prior_type='dirichlet' with a fractional scalar", "C06 value"),
 "C07-A": ("Gibbs kernel cache keyed by the Markov-blanket assignment only", "two variables with identical Markov blankets", "C07 gibbs.not_full_conditional"),
 "C07-B": ("likelihood-weight lookup with transposed parent axes", "evidence node with >= 2 parents and an asymmetric CPD", "C07 frame.likelihood_weight"),
 "C08-A": ("minimal_dseparator replaces latent separator members by their parents only once", "latent parent whose parent is latent too", "C08 minsep.*"),
 "C09-A": ("NET writer takes the parent order of the header from the graph", "CPD evidence order different from the edge insertion order", "C09 roundtrip.value+write.parents"),
 "C09-B": ("BIF reader's number grammar allows an exponent only after a decimal point", "values like 1e-06 (one significant digit, below 1e-4)", "C09 read.raises/roundtrip.value"),
 "C11-A": ("flip legality looks for detours with cutoff=2", "edge X->Y plus a detour of >= 3 edges, flip is the best move", "C11 legal.spurious.flip.cycle / contract.cyclic"),
 "C11-B": ("TreeSearch caches the weight matrix on the object", "same estimator reused with another edge_weights_fn", "C11 not_maximum_weight (reused object)"),
 "C12-A": ("skeleton phase enumerates adj(v) - adj(u) for the second endpoint", "separating set mixing common and own neighbours, pair visited in one order", "C12 skeleton"),
 "C12-B": ("to_dag's clique test iterates a one-shot predecessors() iterator", "node with >= 2 undirected neighbours scanned before a legitimate sink", "C12 not_in_equivalence_class / new_v_structure (rebased patch)"),
 "C13-A": ("p(z) over the adjustment set replaced by the product of marginals", "adjustment set with >= 2 mutually dependent variables", "C13 result.value"),
 "C13-B": ("back-door candidate pool = ancestors of X or Y (includes mediators)", "confounded mediator A->X, A->M, X->M, M->Y", "C13 set_violates_backdoor_criterion (confmed shape)"),
 "C15-A": ("DBN add_edge folds time slices after the cycle check", "cycle-closing intra-slice edge spelled with slice >= 2", "C15 returns_ok_expected_rejected"),
 "C15-B": ("remove_node marginalises children's CPDs only when the node has a CPD", "partially parameterised model: removed node without CPD, child with CPD", "C15 returns_ok_expected_rejected / cpd_scope"),
 "C16-A": ("same stale pruning cache as C01-B", "two virtual-evidence questions with different likelihoods on one engine", "C16 answer_differs_from_fresh_engine"),
 "C16-B": ("helper adds the virtual-evidence states to the caller's evidence dict", "a question with a caller-owned evidence dict AND virtual evidence", "C16 evidence_argument_changed (rebased patch)"),
 "C17-A": ("interface evidence carried forward only if `state` is truthy", "interface evidence in state index 0 at a slice >= 1", "C17 forward_inference marginal"),
 "C17-B": ("belief update divides before multiplying", "smoothing with a zero entry in a forward message", "C17 backward_inference marginal (NaN)"),
 "C10-A": ("BIC/AIC take the variable's cardinality from the observed count matrix", "a declared but never observed state of the scored variable", "C10 local.value (declared-unobserved states)"),
 "C10-B": ("state_counts(reindex=False) fast path with a mixed-radix stride slip", ">= 3 parents with non-uniform cardinalities", "C10 local.value / counts"),
 "C14-A": ("is_triangulated shortcut |E| < |V| => chordal", "disconnected graph with one chordless cycle (>= 2 components)", "C14 triangulate.not_chordal (disconnected-cycle shapes; missed at first)"),
 "C14-B": ("to_junction_tree used-factor bookkeeping keyed by id()", "the SAME factor object listed twice in the network", "C14 junction_tree.joint / factor_bag (same-object duplicates; missed at first)"),
 "C18-A": ("closure() memoised and handed out by reference", "mutating a returned closure, then asking closure/entails again", "C18 closure.aliasing (missed at first)"),
 "C18-B": ("is_iequivalent shielding test uses DiGraph.neighbors (= successors)", "collider whose parents are joined by the edge second-parent -> first-parent", "C18 iequivalent.verdict"),
 "C19-A": ("stratified power-divergence test indexes positional codes by index labels", "DataFrame with a non-default index (shuffled / filtered rows)", "C19 row-order / index-label invariance (missed at first)"),
 "C19-B": ("partial-correlation design matrix centred by the grand mean", ">= 2 conditioning variables with different means", "C19 pearsonr.value vs residual form"),
 "C20-A": ("to_joint_gaussian pairs coefficients with the graph's parent order", "CPD evidence order different from edge insertion order, unequal coefficients", "C20 joint.mean / joint.covariance"),
 "C20-B": ("in-place Gaussian product/divide keeps the stale cached precision matrix", "precision_matrix / canonical form read after an in-place operation", "C20 inplace.precision"),
 "C01-C": ("DiscreteFactor.product fast path for nested scopes transposes with the inverse permutation", "two factors sharing >= 3 variables in a rotated relative axis order (family with >= 3 parents), non-greedy elimination order", "C01 VE.Eliminate.phi.value / result.value (fam3two shape); C04 product (4-variable pool)"),
 "C01-D": ("_virtual_evidence helper writes the auxiliary state into the caller's evidence dict", "evidence dict passed together with virtual evidence and reused", "C01 evidence_argument_changed (missed at first: one caller-owned dict per case); C16"),
 "C02-C": ("belief-update division transposes mu with the inverse axis permutation", "sepset of >= 3 variables whose axis orders differ by a 3-cycle", "C02 bp_send beta.value / calibrate raises (missed at first: k5m / wheel5 / core3x3 shapes, hand-built junction trees)"),
 "C02-D": ("calibration stops after the first sweep without a changed message", "non-star clique tree with >= 4 cliques and an unlucky root order", "C02 bp_beliefs not_proportional_to_marginal"),
 "C03-C": ("predict(stochastic=False) takes per-variable posterior modes", ">= 2 missing columns whose joint mode differs from the marginal modes", "C03 not_a_maximiser (engine predict)"),
 "C03-D": ("BeliefPropagation._query treats any existing beliefs as sum-calibrated", "max_calibrate() then map_query on a proper sub-tree", "C03 not_a_maximiser after max_calibrate (missed at first); C16; C02"),
 "C04-C": ("__eq__ realigns permuted state orders with the inverse permutation", "a shared variable with >= 3 states listed in rotated order", "C04 eq.value (missed at first: equality is asked again on re-labelled copies)"),
 "C04-D": ("FactorSet.product puts the operand's factor objects into the result", "product, then in-place marginalize of the result, then look at the operand", "C04 FactorSet frame.members (missed at first: Gen_C04S machine added)"),
 "C05-C": ("to_factor shares the state-name maps with the CPD", "in-place operation on the returned factor, then use of the CPD by name", "C05 frame.state_names"),
 "C05-D": ("check_model compares the SETS of state names of parent and child view", "same names in another order", "C05 accepts_invalid (missed at first: state_order defect added to Gen_C05V)"),
 "C06-C": ("MLE serial fast path drops weighted=", "get_parameters / fit with weighted=True, n_jobs=1", "C06 value (mle)"),
 "C06-D": ("Dirichlet pseudo counts accumulated in place into the caller's float array", "float ndarray prior reused for a second call", "C06 argument_changed (missed at first: ndarray priors, frame check, repeated calls)"),
 "C07-C": ("partial_samples columns aligned by index label", "partial_samples with a non-default index, first topological node not supplied", "C07 partial.columns_not_as_given (missed at first: partial / missing / xrepro events added)"),
 "C07-D": ("simulate() masks missing values on a set-ordered column list", "include_missing=True with a seed, compared across PYTHONHASHSEED", "C07 repro.differs_across_hash_seeds (missed at first)"),
 "C08-B": ("_get_ancestors_of memoised, not invalidated by edge / node removal", "query, remove_edge / remove_node / do(inplace), same query again", "C08 active_trail.set / ancestral.graph after edit events (missed at first: Trace_C08 became a state machine with edits)"),
 "C08-C": ("get_markov_blanket drops the node itself by identity", "node argument equal but not identical to the stored name (tuple, large int, built string)", "C08 markov_blanket.set (missed at first: fresh-but-equal names in every concretisation)"),
 "C15-C": ("JunctionTree.add_edge detects cycles by counting edges", "cycle-closing edge while another component exists", "C15 JunctionTree.add_edge returns_ok_expected_rejected"),
 "C15-D": ("do(inplace=False) shares the untouched CPD objects", "do(), then remove_node / do(inplace=True) on either model", "C15 frame.cpd_scope"),
 "C16-C": ("sampling weight cache keyed by node only (parent order differs between forward and likelihood-weighted sampling)", "one BayesianModelSampling object serving both kinds of call", "C16 bms.sample answer_differs_from_fresh_engine (missed at first by C16: sampling engine histories added); C07"),
 "C16-D": ("same change as C03-D seen through query()", "max_calibrate() then query on a sub-tree", "C16 bp.query answer_differs_from_fresh_engine (missed at first by C16: engine operations added to the histories); C02"),
}
base = os.path.join(os.path.dirname(os.path.dirname(os.path.abspath(__file__))), "seeded")
for sid in sorted(os.listdir(base)):
    d = os.path.join(base, sid)
    what, needs, caught = NEEDS.get(sid, ("see notes.md", "see notes.md", "see DESIGN.md section 14"))
    meta = {"seed": sid, "property": sid.split("-")[0], "change": what, "needs_to_manifest": needs, "caught_by": caught,
            "ran": ["tools/confirm_seed.sh " + sid + "  (demo clean vs patched + stable baseline with the patch, in a scratch worktree of /repo HEAD)",
                    "tools/seedtest.sh seeded/" + sid + "/patch.diff " + sid.split("-")[0] + "  (quick check against the patched worktree)"]}
    cf = os.path.join(d, "confirm.json")
    if os.path.exists(cf):
        try:
            meta["confirmation"] = json.load(open(cf))
        except Exception:
            pass
    json.dump(meta, open(os.path.join(d, "meta.json"), "w"), indent=1)
print("ok")
