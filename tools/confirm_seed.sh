#!/bin/sh
# usage: confirm_seed.sh <seed id e.g. C01-A>   (expects /verif/seeded/<id>/patch.diff [or patch_rebased_on_fix.diff] and demo.py)
# Confirms in a scratch worktree of /repo HEAD: demo passes clean, fails with the patch; the stable baseline stays green with the patch.
id="$1"; d=/verif/seeded/$id; wt=/tmp/cw_$id
git -C /repo worktree add -q --detach "$wt" HEAD || exit 2
cd "$wt" || exit 2
clean=$(PYTHONPATH=$wt LOKY_MAX_CPU_COUNT=2 OMP_NUM_THREADS=1 timeout 1200 /venv/bin/python $d/demo.py >/dev/null 2>&1; echo $?)
pf="$d/patch.diff"
git apply --check "$pf" 2>/dev/null || pf="$d/patch_rebased_on_fix.diff"
git apply "$pf" || { echo "{\"seed\": \"$id\", \"error\": \"patch does not apply\"}" | tee "$d/confirm.json"; cd /; git -C /repo worktree remove --force "$wt"; exit 2; }
patched=$(PYTHONPATH=$wt LOKY_MAX_CPU_COUNT=2 OMP_NUM_THREADS=1 timeout 1200 /venv/bin/python $d/demo.py >/dev/null 2>&1; echo $?)
nice -n 10 /verif/tools/baseline.py "$wt" -n 5 > "$d/baseline.txt" 2>&1
base=$(head -1 "$d/baseline.txt")
cd /
git -C /repo worktree remove --force "$wt"
echo "{\"seed\": \"$id\", \"patch\": \"$(basename $pf)\", \"repo_head\": \"$(git -C /repo rev-parse --short HEAD)\", \"demo_exit_clean\": $clean, \"demo_exit_patched\": $patched, \"baseline_with_patch\": \"$base\"}" | tee "$d/confirm.json"
