#!/bin/sh
# usage: confirm_seed.sh <seed id e.g. C01-A>   (expects /verif/seeded/<id>/patch.diff and demo.py)
# Confirms in a scratch worktree: demo passes on clean HEAD, fails with the patch; baseline stays green with the patch.
id="$1"; d=/verif/seeded/$id; wt=/tmp/cw_$id
git -C /repo worktree add -q --detach "$wt" HEAD || exit 2
cd "$wt" || exit 2
clean=$(PYTHONPATH=$wt LOKY_MAX_CPU_COUNT=2 OMP_NUM_THREADS=1 timeout 900 /venv/bin/python $d/demo.py >/dev/null 2>&1; echo $?)
git apply "$d/patch.diff" || { echo "patch does not apply"; git -C /repo worktree remove --force "$wt"; exit 2; }
patched=$(PYTHONPATH=$wt LOKY_MAX_CPU_COUNT=2 OMP_NUM_THREADS=1 timeout 900 /venv/bin/python $d/demo.py >/dev/null 2>&1; echo $?)
base=$(/verif/tools/baseline.py "$wt" -n 6 | head -1)
rm -f "$wt"/*.bif "$wt"/model.* 2>/dev/null
git -C /repo worktree remove --force "$wt"
echo "{\"seed\": \"$id\", \"demo_exit_clean\": $clean, \"demo_exit_patched\": $patched, \"baseline_with_patch\": \"$base\"}" | tee "$d/confirm.json"
