#!/venv/bin/python
"""Run the repository test-suite in <dir> (default /repo) and compare with /root/.vp/BASELINE.json stable_pass.
usage: baseline.py [dir] [-n N]     exit 0 iff every stable_pass test passed."""
import json, os, subprocess, sys, tempfile
import xml.etree.ElementTree as ET

def run(d, n, only=None):
    fd, xml = tempfile.mkstemp(suffix=".xml"); os.close(fd)
    cmd = ["/venv/bin/python", "-m", "pytest", "-q", "-p", "no:cacheprovider", "--timeout=900",
           "--continue-on-collection-errors", f"--junitxml={xml}"]
    if n > 1: cmd += ["-n", str(n)]
    if only: cmd += only
    env = dict(os.environ); env.pop("PGMPY_VERIF", None)
    env.update(LOKY_MAX_CPU_COUNT="2", OMP_NUM_THREADS="1", MKL_NUM_THREADS="1", OPENBLAS_NUM_THREADS="1")
    subprocess.run(cmd, cwd=d, env=env, stdout=subprocess.DEVNULL, stderr=subprocess.DEVNULL)
    res = {}
    for tc in ET.parse(xml).getroot().iter("testcase"):
        tid = f"{tc.get('classname')}::{tc.get('name')}"
        bad = any(c.tag in ("failure", "error", "skipped") for c in tc)
        res[tid] = not bad
    os.remove(xml)
    return res

def main():
    args = sys.argv[1:]; n = 8
    if "-n" in args:
        i = args.index("-n"); n = int(args[i+1]); del args[i:i+2]
    d = args[0] if args else "/repo"
    only = args[1:] or None          # optional: restrict to these test files (stable tests of other files are ignored)
    stable = set(json.load(open("/root/.vp/BASELINE.json"))["stable_pass"])
    if only:
        mods = {f[:-3].replace("/", ".") for f in only}
        stable = {t for t in stable if t.split("::")[0].rsplit(".", 1)[0] in mods}
    res = run(d, n if not only else 1, only)
    bad = sorted(t for t in stable if not res.get(t, False))
    for _retry in range(5):   # re-run the failing files serially (xdist interference, sampling-based flaky tests)
        if not bad:
            break
        files = sorted({"/".join(t.split("::")[0].split(".")[:-1]) + ".py" for t in bad})
        res2 = run(d, 1, files)
        bad = sorted(t for t in bad if not res2.get(t, False))
    print(f"stable_pass={len(stable)} failing_now={len(bad)}")
    for t in bad[:30]: print("  FAIL", t)
    sys.exit(1 if bad else 0)
main()
