#!/bin/sh
# usage: seedtest.sh <patch.diff> <property id> [more ids]
# apply a seeded change in a scratch worktree of /repo's HEAD, run quick checks against it (VERIF_REPO), remove it.
p="$1"; shift
wt=/tmp/st_wt_$$
git -C /repo worktree add -q --detach "$wt" HEAD || exit 2
( cd "$wt" && git apply "$p" ) || { echo "patch does not apply"; git -C /repo worktree remove --force "$wt"; exit 2; }
for id in "$@"; do
  (cd /verif && VERIF_EVIDENCE_DIR=/tmp/st_ev_$$ VERIF_REPO="$wt" ./check "$id" --tier quick 2>&1 | grep -v CostModel | grep -E "VIOLATION|KNOWN|MACHINERY|^\[C|api=" | cut -c1-300 | head -40)
done
git -C /repo worktree remove --force "$wt"; rm -rf /tmp/st_ev_$$
