#!/bin/sh
# usage: seedtest.sh <patch.diff> <property id> [more ids]   -- apply a seeded change to /repo, run quick checks, revert
p="$1"; shift
cd /repo || exit 2
git diff --quiet || { echo "/repo has uncommitted changes"; exit 2; }
git apply --check "$p" || { echo "patch does not apply"; exit 2; }
git apply "$p"
for id in "$@"; do
  (cd /verif && ./check "$id" --tier quick 2>&1 | grep -v CostModel | grep -E "VIOLATION|KNOWN|MACHINERY|^\[C|api=" | cut -c1-300 | head -12)
done
git checkout -- . && git status --short | grep -v model.bif
